"""C20 - in-memory storage returns exactly what was stored, in order.

Breadth-first search over operation histories of a real ``MemoryStorage`` against a reference
model (a Python list of ``(t, bytes)`` plus the write-mode automaton).  See DESIGN.md, C20.
"""

from __future__ import annotations

import collections

PROPERTY = "C20"
LEVEL = "model_checking"

MODES = ["truncate_once", "truncate", "append", "readonly"]
# "+pre": the storage is created with two frames already in it (MemoryStorage.from_fields); "+preC": complex frames
KINDS = ["scalar", "collection", "scalar+pre", "collection+preC"]

# operation alphabet, simplest first
OPS = [
    "start",  # start_writing(a)
    "appA",  # append(a, 1.5)
    "appB",  # append(b, 2.5)
    "appN",  # append(a)            (time chosen by the storage)
    "mutA",  # a.data += 10         (mutate the source after appending)
    "read",  # read everything back, check, then scribble over the fields read back
    "end",  # end_writing()
    "clear",  # clear()
    "clearS",  # clear(clear_data_shape=True)
    "derive",  # extract_time_range / extract_field / view_field / copy / apply
    "startX",  # start_writing(x) with a field of another grid/shape
    "appX",  # append(x, 3.5)        (incompatible field)
    "track",  # tracker(): initialize(a) + handle(a, 0.5) + handle(b, 4.0) + finalize()
    "appE",  # append(b, 2.5) once more (equal time stamps are allowed)
    "startC",  # start_writing(c) with a COMPLEX field of the same grid and shape (a new session may change dtype)
    "appC",  # append(c, 3.0); enabled only while the template of the current session is the complex field
    "app0",  # append(b, 0.0): an explicit time stamp of exactly zero (a falsy value that is not "no time given")
]


def enabled(op, model):
    """preconditions of the alphabet: a complex field is only appended in a session started with it"""
    if op == "appC":
        return model.template == "ab" and model.session_complex
    if op in ("start", "track"):
        # a session with a real template must not inherit complex frames (they cannot be read through it)
        survives = model.mode == "append"
        return not (survives and any(any(v.imag != 0 for v in d) for _, d in model.frames))
    return True


# ----------------------------------------------------------------------------------------------
# reference model (knows nothing about py-pde)
# ----------------------------------------------------------------------------------------------


class Model:
    """list of (time, frozen data) + write-mode automaton + template latch"""

    def __init__(self, mode, data_a, data_b, data_x):
        self.mode = mode
        self.frames = []  # [(t, tuple of floats)]
        self.template = None  # None | "ab" | "x"   -> which family of fields is accepted
        self.grid = None  # None | "ab" | "x"
        self.a, self.b, self.x = list(data_a), list(data_b), list(data_x)
        self.c = [complex(v, 0.5 + k) for k, v in enumerate(data_b)]
        self.session_complex = False

    def prefill(self, complex_frames):
        """two frames that are in the storage from the beginning (created with from_fields)"""
        fa = self.c if complex_frames else self.a
        fb = [v * 2 for v in (self.c if complex_frames else self.b)]
        self.frames = [(0.5, tuple(complex(v) for v in fa)), (0.75, tuple(complex(v) for v in fb))]
        self.template = self.grid = "ab"
        self.session_complex = bool(complex_frames)

    def _start(self, fam):
        if self.mode == "readonly":
            return "RuntimeError"
        if self.template is not None and self.template != fam:
            return "ValueError"  # data shape incompatible with stored data
        self.template = fam
        self.grid = fam
        if self.mode == "truncate_once":
            self.frames = []
            self.mode = "append"
        elif self.mode == "truncate":
            self.frames = []
        return None

    def _append(self, fam, data, t):
        if t is None:
            t = 0 if not self.frames else self.frames[-1][0] + 1
        if self.grid is None:
            self.grid = fam  # the first append latches the grid
        elif self.grid != fam:
            return "ValueError"  # grids incompatible
        if self.template is None:
            return "RuntimeError"  # data shape unknown: writing was never started
        if self.template != fam:
            return "ValueError"
        self.frames.append((float(t), tuple(complex(v) for v in data)))
        return None

    def step(self, op):
        if op in ("start", "track"):
            if self.mode != "readonly" and self.template in (None, "ab"):
                self.session_complex = False
        if op == "startC":
            err = self._start("ab")
            if err is None:
                self.session_complex = True
            return err
        if op == "appC":
            return self._append("ab", self.c, 3.0)
        if op == "start":
            return self._start("ab")
        if op == "startX":
            return self._start("x")
        if op == "appA":
            return self._append("ab", self.a, 1.5)
        if op in ("appB", "appE"):
            return self._append("ab", self.b, 2.5)
        if op == "app0":
            return self._append("ab", self.b, 0.0)
        if op == "appN":
            return self._append("ab", self.a, None)
        if op == "appX":
            return self._append("x", self.x, 3.5)
        if op == "mutA":
            self.a = [v + 10 for v in self.a]
            return None
        if op == "clear":
            self.frames = []
            return None
        if op == "clearS":
            self.frames = []
            self.template = None
            return None
        if op == "track":
            err = self._start("ab")
            if err:
                return err
            for data, t in ((self.a, 0.5), (self.b, 4.0)):
                err = self._append("ab", data, t)
                if err:
                    return err
            return None
        return None  # end, read, derive do not change the model


# ----------------------------------------------------------------------------------------------
# real system
# ----------------------------------------------------------------------------------------------


class Real:
    def __init__(self, mode, kind):
        import numpy as np
        from pde import FieldCollection, MemoryStorage, ScalarField, UnitGrid

        self.np = np
        kind = kind.split("+")[0]
        g, gx = UnitGrid([2]), UnitGrid([3])
        if kind == "scalar":
            self.a = ScalarField(g, [1.0, 2.0], label="a")
            self.b = ScalarField(g, [3.0, 4.0], label="a")
            self.x = ScalarField(gx, [5.0, 6.0, 7.0])
        else:
            self.a = FieldCollection(
                [ScalarField(g, [1.0, 2.0], label="p"), ScalarField(g, [0.5, 0.25], label="q")]
            )
            self.b = FieldCollection(
                [ScalarField(g, [3.0, 4.0], label="p"), ScalarField(g, [7.0, 8.0], label="q")]
            )
            self.x = FieldCollection(
                [ScalarField(gx, [5.0, 6.0, 7.0], label="p"), ScalarField(gx, [1.0, 1.0, 1.0], label="q")]
            )
        self.c = self.b.copy(dtype=complex)
        self.c.data[...] = (self.b.data + 1j * (0.5 + np.arange(self.b.data.size).reshape(self.b.data.shape)))
        self.kind = kind
        self.st = MemoryStorage(write_mode=mode)
        self.MemoryStorage = MemoryStorage

    def prefill(self, mode, complex_frames):
        src = self.c if complex_frames else self.a
        pa = src.copy()
        pb = (self.c if complex_frames else self.b).copy()
        pb.data[...] = pb.data * 2
        self.st = self.MemoryStorage.from_fields(times=[0.5, 0.75], fields=[pa, pb], write_mode=mode)
        self._prefill_fields = (pa, pb)  # never touched again

    def flat(self, f):
        return tuple(complex(v) for v in self.np.asarray(f.data).ravel())

    def step(self, op):
        st = self.st
        if op == "start":
            st.start_writing(self.a)
        elif op == "startX":
            st.start_writing(self.x)
        elif op == "appA":
            st.append(self.a, 1.5)
        elif op in ("appB", "appE"):
            st.append(self.b, 2.5)
        elif op == "app0":
            st.append(self.b, 0.0)
        elif op == "appN":
            st.append(self.a)
        elif op == "appX":
            st.append(self.x, 3.5)
        elif op == "startC":
            st.start_writing(self.c)
        elif op == "appC":
            st.append(self.c, 3.0)
        elif op == "mutA":
            self.a.data += 10
        elif op == "end":
            st.end_writing()
        elif op == "clear":
            st.clear()
        elif op == "clearS":
            st.clear(clear_data_shape=True)
        elif op == "track":
            tr = st.tracker(interrupts=1)
            tr.initialize(self.a, {"note": 1})
            tr.handle(self.a, 0.5)
            tr.handle(self.b, 4.0)
            tr.finalize({"note": 2})

    def canon(self):
        """canonical observation of the real object used to merge states"""
        st = self.st
        return (
            st.write_mode,
            st._data_shape,
            None if st._grid is None else tuple(st._grid.shape),
            None if st._field is None else (type(st._field).__name__, tuple(st._field.grid.shape), str(st._field.dtype)),
            None if st._dtype is None else str(st._dtype),
            tuple((float(t), d.tobytes()) for t, d in zip(st.times, st.data)),
            self.a.data.tobytes(),
            tuple(sorted(st.info)),
        )


def _err(msg, hist, **kw):
    return {"sig": msg, "msg": f"{msg} after history {hist}", "detail": kw}


def observe(real: Real, model: Model, op, hist, deep: bool):
    """compare every observable of the real storage with the model; return list of violations"""
    np = real.np
    st = real.st
    out = []
    frames = model.frames
    # cheap observations after every transition
    if len(st) != len(frames):
        out.append(_err("len differs from model", hist, real=len(st), model=len(frames)))
        return out
    if [float(t) for t in st.times] != [t for t, _ in frames]:
        out.append(_err("times differ from model", hist, real=list(st.times), model=[t for t, _ in frames]))
    for i, (t, d) in enumerate(frames):
        if tuple(complex(v) for v in np.asarray(st.data[i]).ravel()) != d:
            out.append(_err("stored frame differs from data at append time", hist, index=i))
            break
    if st.write_mode != model.mode:
        out.append(_err("write mode differs from model", hist, real=st.write_mode, model=model.mode))
    # no aliasing between stored frames and sources / other frames
    for i, d in enumerate(st.data):
        for name in ("a", "b", "x", "c"):
            if np.shares_memory(d, getattr(real, name)._data_full):
                out.append(_err(f"stored frame aliases source field {name}", hist, index=i))
        for j in range(i):
            if np.shares_memory(d, st.data[j]):
                out.append(_err("two stored frames alias each other", hist, i=i, j=j))
    if out or not deep:
        return out

    # ---- read path (op == "read") ----
    if op == "read" and model.template is not None:
        n = len(frames)
        fields = []
        for i, (t, f) in enumerate(st.items()):
            if float(t) != frames[i][0] or real.flat(f) != frames[i][1]:
                out.append(_err("items() differs from model", hist, index=i))
            fields.append(f)
        if len(fields) != n:
            out.append(_err("items() yields wrong number of frames", hist))
        for i in range(n):
            f = st[i]
            g = st[i - n]  # negative index of the same frame
            if real.flat(f) != frames[i][1] or real.flat(g) != frames[i][1]:
                out.append(_err("storage[i] differs from model", hist, index=i))
            if type(f) is not type(real.a) or f.grid != (real.a.grid if model.template == "ab" else real.x.grid):
                out.append(_err("field read back has wrong class/grid", hist, index=i))
            fields += [f, g]
        sl = st[0:n:2]
        if [real.flat(f) for f in sl] != [d for _, d in frames[0:n:2]]:
            out.append(_err("slice read differs from model", hist))
        fields += list(sl)
        for exc_i in (n, -n - 1):
            try:
                st[exc_i]
                out.append(_err("out-of-range read did not raise IndexError", hist, index=exc_i))
            except IndexError:
                pass
        if n and model.template == "ab" and real.kind == "collection":
            if st[0].labels != real.a.labels:
                out.append(_err("labels of collection read back differ", hist))
        # fields read back are private copies: scribble and look again
        for k, f in enumerate(fields):
            for i, d in enumerate(st.data):
                if np.shares_memory(f._data_full, d):
                    out.append(_err("field read back aliases stored frame", hist, index=i))
            for name in ("a", "b", "x", "c"):
                if np.shares_memory(f._data_full, getattr(real, name)._data_full):
                    out.append(_err("field read back aliases a source field", hist))
            for h in fields[:k]:
                if np.shares_memory(f._data_full, h._data_full):
                    out.append(_err("two fields read back alias each other", hist))
                    break
            f.data[...] = -99.0
        for i, (t, d) in enumerate(frames):
            if tuple(complex(v) for v in np.asarray(st.data[i]).ravel()) != d:
                out.append(_err("mutating a field read back changed a stored frame", hist, index=i))
        if model.template == "ab" and real.flat(real.a) != tuple(model.a):
            out.append(_err("mutating a field read back changed the source", hist))

    # ---- derived views (op == "derive") ----
    if op == "derive" and model.template is not None and frames:
        times = [t for t, _ in frames]
        is_sorted = all(times[i] <= times[i + 1] for i in range(len(times) - 1))
        if is_sorted:
            for rng in [(1.0, 2.5), (None, 2.0), 2.5, None, (2.6, 3.9), (times[0], times[-1])]:
                e = st.extract_time_range(rng)
                try:
                    lo, hi = rng
                except TypeError:
                    lo, hi = None, rng
                lo = times[0] if lo is None else lo
                hi = times[-1] if hi is None else hi
                exp = [(t, d) for t, d in frames if lo <= t <= hi]
                got = [(float(t), tuple(complex(v) for v in np.asarray(d).ravel())) for t, d in zip(e.times, e.data)]
                if got != exp:
                    out.append(_err("extract_time_range differs from model", hist, range=rng, got=got, exp=exp))
                elif [real.flat(f) for f in e] != [d for _, d in exp]:
                    out.append(_err("extract_time_range fields differ from model", hist, range=rng))
        # copy: equal and independent
        c = st.copy()
        if [float(t) for t in c.times] != times or [
            tuple(complex(v) for v in np.asarray(d).ravel()) for d in c.data
        ] != [d for _, d in frames]:
            out.append(_err("copy() differs from stored frames", hist))
        if any(np.shares_memory(x, y) for x in c.data for y in st.data):
            out.append(_err("copy() aliases the original storage", hist))
        if c is st or c.data is st.data or c.times is st.times:
            out.append(_err("copy() shares containers with the original", hist))
        # apply: consistent with the stored frames
        ap = st.apply(lambda f, t: f * 2 + t)
        exp = [tuple(2 * v + t for v in d) for t, d in frames]
        if [float(t) for t in ap.times] != times or [
            tuple(complex(v) for v in np.asarray(d).ravel()) for d in ap.data
        ] != exp:
            out.append(_err("apply() differs from function of stored frames", hist))
        if real.kind == "collection" and model.template == "ab":
            for fid, idx in ((0, 0), (1, 1), ("q", 1), ("p", 0)):
                ex = st.extract_field(fid)
                k = len(frames[0][1]) // 2
                exp = [d[idx * k : (idx + 1) * k] for _, d in frames]
                got = [tuple(complex(v) for v in np.asarray(d).ravel()) for d in ex.data]
                if got != exp or [float(t) for t in ex.times] != times:
                    out.append(_err("extract_field differs from model", hist, field=fid))
                if [real.flat(f) for f in ex] != exp:
                    out.append(_err("extract_field fields differ from model", hist, field=fid))
                if any(np.shares_memory(x, y) for x in ex.data for y in st.data):
                    out.append(_err("extract_field aliases the original storage", hist))
                if ex[0].label != ("p", "q")[idx]:
                    out.append(_err("extract_field lost the label", hist, field=fid))
                vw = st.view_field(fid)
                if [float(t) for t in vw.times] != times or len(vw) != len(frames):
                    out.append(_err("view_field times differ from model", hist, field=fid))
                if [real.flat(f) for f in vw] != exp or [(float(t), real.flat(f)) for t, f in vw.items()] != list(zip(times, exp)):
                    out.append(_err("view_field differs from model", hist, field=fid))
                if real.flat(vw[len(frames) - 1]) != exp[-1]:
                    out.append(_err("view_field[i] differs from model", hist, field=fid))
        elif real.kind == "scalar":
            try:
                st.extract_field(0)
                out.append(_err("extract_field on a non-collection did not raise", hist))
            except TypeError:
                pass
        # ---- independence in both directions, also LATER: (1) the source is written again after deriving ----
        mode0, kind0 = getattr(real, "mode0", None), getattr(real, "kind0", None)
        if mode0 is not None and not out:
            for follow in (FOLLOW_UPS if TIER[0] != "quick" else FOLLOW_UPS[1:5]):
                real2, model2 = _rebuild(mode0, kind0, hist)
                derived = [(nm, d, _snapshot(np, d)) for nm, d in _derive_all(real2, model2)]
                for op2 in follow:
                    if enabled(op2, model2):
                        model2.step(op2)
                        try:
                            real2.step(op2)
                        except Exception:  # noqa: BLE001
                            pass
                for nm, d, snap in derived:
                    if _snapshot(np, d) != snap or len(d) != len(snap[0]):
                        out.append(_err(f"{nm}: derived storage changed when the source was written later", hist, follow=follow))
                        continue
                    try:
                        back = [real2.flat(d[i]) for i in range(len(d))]
                    except Exception as e:  # noqa: BLE001
                        out.append(_err(f"{nm}: derived storage cannot be read after the source was written later", hist,
                                        follow=follow, error=type(e).__name__))
                        continue
                    if back != snap[1]:
                        out.append(_err(f"{nm}: fields of the derived storage changed when the source was written later", hist, follow=follow))
            # (2) the derived storages are written to: the source must not notice
            for nm, d in _derive_all(real, model):
                for fld, tt in ((real.a, 9.5), (real.c, 9.75)):
                    try:
                        d.append(fld, tt)
                    except Exception:  # noqa: BLE001
                        pass
                try:
                    d.clear()
                except Exception:  # noqa: BLE001
                    pass
            if [float(t) for t in st.times] != times or len(st) != len(frames):
                out.append(_err("writing to a derived storage changed the times of the original", hist))
        # derived objects did not disturb the original
        for i, (t, d) in enumerate(frames):
            if tuple(complex(v) for v in np.asarray(st.data[i]).ravel()) != d:
                out.append(_err("deriving a view changed a stored frame", hist, index=i))
    return out


def run_history(case):
    """replay one history on a fresh real storage and its model (used for replay and BFS)"""
    mode, kind, hist = case["mode"], case["kind"], list(case["history"])
    real, model, viol = _replay(mode, kind, hist, check_all=True)
    return {"v": viol}


TIER = ["thorough"]  # set by bfs() from the case; replays use the full list of follow-ups
FOLLOW_UPS = [["appA"], ["start", "appA"], ["appN", "appB"], ["clear"], ["end", "start", "appB"], ["track"], ["startC", "appC"]]


def _rebuild(mode, kind, hist):
    """the real storage after `hist`, without any observation (used to look ahead from a derived storage)"""
    real = Real(mode, kind)
    model = Model(mode, real.flat(real.a), real.flat(real.b), real.flat(real.x))
    if "+pre" in kind:
        real.prefill(mode, kind.endswith("preC"))
        model.prefill(kind.endswith("preC"))
    for op in hist:
        if not enabled(op, model):
            continue
        model.step(op)
        try:
            real.step(op)
        except Exception:  # noqa: BLE001
            pass
    return real, model


def _derive_all(real, model):
    """every kind of derived storage of the current contents: [(name, storage)]"""
    st = real.st
    out = [("copy()", st.copy()), ("apply()", st.apply(lambda f, t: f * 2 + t)), ("extract_time_range()", st.extract_time_range(None))]
    if real.kind == "collection" and model.template == "ab":
        out += [("extract_field(0)", st.extract_field(0)), ("extract_field('q')", st.extract_field("q"))]
    return out


def _snapshot(np, d):
    return ([float(t) for t in d.times], [tuple(complex(v) for v in np.asarray(x).ravel()) for x in d.data])


LOOKAHEAD_MAX_LEN = 5  # histories up to this length get the look-ahead from their derived storages (cost: 7 rebuilds)


def _replay(mode, kind, hist, check_all=False, lookahead=True):
    real = Real(mode, kind)
    if lookahead:
        real.mode0, real.kind0 = mode, kind
    model = Model(mode, real.flat(real.a), real.flat(real.b), real.flat(real.x))
    if "+pre" in kind:
        real.prefill(mode, kind.endswith("preC"))
        model.prefill(kind.endswith("preC"))
    viol = []
    for i, op in enumerate(hist):
        last = i == len(hist) - 1
        if not enabled(op, model):
            continue  # outside the alphabet in this state: a no-op
        exp = model.step(op)
        got = None
        try:
            real.step(op)
        except Exception as e:  # noqa: BLE001
            got = type(e).__name__
        if last or check_all:
            if got != exp:
                viol.append(
                    _err(
                        f"op {op}: raised {got}, model expects {exp}",
                        hist[: i + 1],
                        mode=mode,
                        kind=kind,
                    )
                )
            viol += observe(real, model, op, hist[: i + 1], deep=True)
        if viol:
            break
    for v in viol:
        v["case"] = {"mode": mode, "kind": kind, "history": hist}
        v["fn"] = "checks.c20:run_history"
        v["sig"] = f"{mode}|{kind}|{v['sig']}"
    return real, model, viol


def bfs(case):
    """BFS from one root (mode, kind, first op) to the given depth with state merging.

    For every merged state two witnesses are kept (the first and the latest history reaching
    it); both are expanded and must yield the same successor states - this validates the
    canonicalisation used for merging on the real object.
    """
    mode, kind, first, depth = case["mode"], case["kind"], case["first"], case["depth"]
    TIER[0] = case.get("tier", "thorough")
    root = [first]
    real, model, viol = _replay(mode, kind, root)
    states = {real.canon(): [root]}
    frontier = collections.deque([real.canon()])
    transitions = 1
    executed = 1
    viols = list(viol)
    max_depth = 1
    merge_checks = 0
    while frontier and not viols:
        key = frontier.popleft()
        witnesses = states[key]
        hist0 = witnesses[0]
        if len(hist0) >= depth:
            continue
        succ_ref = None
        for w_i, hist in enumerate(witnesses[:2]):
            succ = []
            for op in OPS:
                h = hist + [op]
                # (the look-ahead of `derive` runs once per merged state - first witness - and for short histories)
                real, model, viol = _replay(mode, kind, h, lookahead=(w_i == 0 and len(h) <= LOOKAHEAD_MAX_LEN))
                executed += 1
                if viol:
                    viols += viol
                    break
                k = real.canon()
                succ.append(k)
                if w_i == 0:
                    transitions += 1
                    if k not in states:
                        states[k] = [h]
                        frontier.append(k)
                        max_depth = max(max_depth, len(h))
                    elif len(states[k]) < 2 and states[k][0] != h:
                        states[k].append(h)
            if viols:
                break
            if w_i == 0:
                succ_ref = succ
            else:
                merge_checks += 1
                if succ != succ_ref:
                    viols.append(
                        {
                            "sig": f"{mode}|{kind}|merged states have different futures",
                            "msg": f"histories {witnesses[0]} and {hist} reach equal observations but diverge",
                            "detail": None,
                            "case": {"mode": mode, "kind": kind, "history": hist},
                            "fn": "checks.c20:run_history",
                        }
                    )
    return {
        "v": viols,
        "n": executed,
        "states": len(states),
        "transitions": transitions,
        "traces": executed,
        "keys": [repr((mode, kind, hash(k))) for k in states],
        "out": f"depth{max_depth}",
        "info": {"merge_checks": merge_checks},
    }


def main(run):
    depth = 5 if run.tier == "quick" else 7
    cases = [
        {"mode": m, "kind": k, "first": op, "depth": depth, "tier": run.tier}
        for m in MODES
        for k in KINDS
        for op in OPS
    ]
    run.explore("checks.c20:bfs", cases, mode="I", part="bfs", chunksize=1, limit=3000)
    run.notes["depth_bound"] = depth
    run.notes["operation_alphabet"] = OPS
    run.assumptions += [
        "NUMBA_DISABLE_JIT=1 (storage code contains no compiled code)",
        "state merging uses (write_mode, data shape, grid, template, dtype, frames, source data, info keys); "
        "validated at run time by expanding two witnesses of every merged state",
        "extract_time_range is compared only when the stored times are sorted (it bisects)",
        f"look-ahead from derived storages (source written again with the derived storages alive; derived storages written "
        f"to): once per merged state, for histories up to length {LOOKAHEAD_MAX_LEN}, "
        f"{4 if run.tier == 'quick' else len(FOLLOW_UPS)} follow-up write sequences",
    ]
    return (
        "BFS over all histories of the 14-operation alphabet up to the depth bound from 4 write modes x "
        "2 field kinds x 14 first operations on a real MemoryStorage; after every transition the real "
        "observation (len, times, frames, mode, aliasing; reads and derived views on read/derive ops) is "
        "compared with the list-based reference model; distinct = distinct canonical states of the real object"
    )
