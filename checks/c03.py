"""C03 - every route to the same operator-with-BC result agrees.

Routes compared on zero field + every unit basis vector + a generic field (all routes are affine,
``gradient_squared`` additionally on pairs): R1 field methods, R2 ``grid.make_operator`` on every
backend that offers the operator, R3 ``make_operator_no_bc`` after ``set_ghost_cells`` (reference),
R4 compiled vs interpreted ghost-cell setter, R5 sparse Laplace matrix of the Poisson solvers,
R6 with / without ``out``, R7 all schedules of the parallel loops (Bernstein conditions from
recorded read/write sets + all permutations of small loops in mode I; real threads in mode J).
See DESIGN.md, C03.
"""

from __future__ import annotations

import itertools

from checks._grids import MORE_GRIDS, SMALL_GRIDS, geometry, grid_name, make_grid
from checks.c01 import elements_for, system_of

PROPERTY = "C03"
LEVEL = "exploration"

CLASSES0 = ["value0", "valueF", "deriv", "derivF", "mixed", "mixedF", "curv", "vexpr", "vexpr_t", "dexpr", "mexpr", "vpoint"]
CLASSES12 = ["value0", "valueT", "valueTF", "deriv", "mixed", "curv", "nvalue", "nderiv", "nmixed", "ncurv", "derivTF"]

OPS = {0: ["laplace", "gradient", "gradient_squared"], 1: ["divergence", "vector_gradient", "vector_laplace"],
       2: ["tensor_divergence", "tensor_double_divergence"]}
FIELD_METHODS = {"laplace": "laplace", "gradient": "gradient", "gradient_squared": "gradient_squared",
                 "divergence": "divergence", "vector_laplace": "laplace", "vector_gradient": "gradient",
                 "tensor_divergence": "divergence"}
RANKS = {"laplace": (0, 0), "gradient": (0, 1), "gradient_squared": (0, 0), "divergence": (1, 0),
         "vector_gradient": (1, 2), "vector_laplace": (1, 1), "tensor_divergence": (2, 1),
         "tensor_double_divergence": (2, 0)}


def bc_for_class(np, geo, rank, axis, upper, cname):
    dim = geo["dim"]
    bshape = tuple(s for i, s in enumerate(geo["shape"]) if i != axis)
    others = [a for i, a in enumerate(geo["axes"]) if i != axis] or [geo["axes"][axis]]
    expr = "1.3 + " + " + ".join(f"{0.5 + 0.25 * k}*{a}" for k, a in enumerate(others))
    if cname == "curv" and geo["shape"][axis] < 2:
        cname = "deriv"
    if cname == "ncurv" and geo["shape"][axis] < 2:
        cname = "nderiv"

    def face(tshape, off):
        arr = np.empty(tshape + bshape)
        for idx in np.ndindex(*arr.shape):
            arr[idx] = off + 0.31 * sum((k + 1) * v for k, v in enumerate(idx))
        return arr

    tshape = (dim,) * rank
    if cname == "value0":
        return "value"
    if cname == "valueF":
        return {"value": face((), 1.3)}
    if cname == "deriv":
        return {"derivative": 0.7}
    if cname == "derivF":
        return {"derivative": face((), -0.4)}
    if cname == "derivTF":
        return {"derivative": face(tshape, -0.4)}
    if cname == "mixed":
        return {"type": "mixed", "value": 0.9, "const": 0.7}
    if cname == "mixedF":
        return {"type": "mixed", "value": face((), 0.6), "const": face((), 0.2)}
    if cname == "curv":
        return {"curvature": 0.8}
    if cname == "vexpr":
        return {"value_expression": expr}
    if cname == "vexpr_t":
        return {"value_expression": expr + " + 0.5*t"}
    if cname == "dexpr":
        return {"derivative_expression": expr + " - t"}
    if cname == "mexpr":
        return {"type": "mixed_expression", "value": "0.9", "const": expr}
    if cname == "vpoint":
        return {"virtual_point": "0.5*value + " + expr}
    if cname == "valueT":
        return {"value": face(tshape[:0] + tshape, 1.3)[(Ellipsis,) + (0,) * len(bshape)] if bshape else face(tshape, 1.3)}
    if cname == "valueTF":
        return {"value": face(tshape, 1.3)}
    if cname == "nvalue":
        return {"normal_value": 1.1}
    if cname == "nderiv":
        return {"normal_derivative": -0.6}
    if cname == "nmixed":
        return {"type": "normal_mixed", "value": 0.9, "const": 0.7}
    if cname == "ncurv":
        return {"normal_curvature": 0.8}
    raise ValueError(cname)


CONST0 = ["value0", "valueF", "deriv", "derivF", "mixed", "mixedF", "curv"]  # classes the sparse matrices support


def build_bc(np, geo, rank, rot):
    """rot: rotation index of the covering design, or ["pair", i, j]: classes CONST0[i], CONST0[j] on the two
    sides of the first axis (all ordered pairs are enumerated for the sparse-matrix route)"""
    classes = CLASSES0 if rank == 0 else CLASSES12
    bc, s, used = {}, 0, []
    time_dep = False
    pair = None
    if isinstance(rot, (list, tuple)):
        pair, rot = (rot[1], rot[2]), rot[1] + rot[2]
    for a, name in enumerate(geo["axes"]):
        if geo["periodic"][a]:
            bc[name] = "anti-periodic" if (rot + a) % 3 == 2 else "periodic"
            used.append(bc[name])
            continue
        for up in (False, True):
            cname = classes[(s + rot) % len(classes)]
            if pair is not None:
                cname = CONST0[pair[int(up)]] if a == 0 else CONST0[(s + rot) % len(CONST0)]
            s += 1
            bc[name + ("+" if up else "-")] = bc_for_class(np, geo, rank, a, up, cname)
            used.append(cname)
            time_dep |= cname in ("vexpr_t", "dexpr")
    return bc, used, time_dep


def field_inputs(np, geo, system, op, rank, seed):
    """zero, every admissible unit input of the valid cells, generic; (label, array)"""
    dim = geo["dim"]
    shape = tuple(geo["shape"])
    full = (dim,) * rank + shape
    els = elements_for(system, op, rank, dim)
    yield "zero", np.zeros(full)
    cells = list(np.ndindex(*shape))
    units = []
    for el in els:
        for c in cells:
            u = np.zeros(full)
            if el is None:
                u[c] = 1.0
            else:
                for idx, w in el:
                    u[idx + c] = w
            units.append(u)
            yield f"unit{len(units)}", u
    if op == "gradient_squared":
        for a, b in itertools.combinations(range(len(units)), 2):
            yield f"pair{a},{b}", units[a] + units[b]
    rng = np.random.default_rng(seed)
    g = np.zeros(full)
    gc = np.zeros(full, dtype=complex)
    for u in units:
        g += rng.uniform(-1, 2) * u
        gc += (rng.uniform(-1, 2) + 1j * rng.uniform(-1, 2)) * u
    yield "generic-complex", gc
    yield "generic", g


def routes_case(case):
    import numpy as np
    from pde import ScalarField, Tensor2Field, VectorField
    from pde.backends import get_backend

    from mc import core

    spec, op, rot, seed = case["grid"], case["op"], case["rot"], case.get("seed", 0)
    opts = dict(case.get("opts") or {})  # operator options (method=, conservative=): must reach every route alike
    jit = core.mode() == "J"
    geo = geometry(spec)
    grid = make_grid(spec)
    system = system_of(geo)
    rank_in, rank_out = RANKS[op]
    dim = geo["dim"]
    if op not in grid.operators:
        return {"nt": False, "out": "operator not defined on this grid"}
    cls = [ScalarField, VectorField, Tensor2Field]
    bc, used, time_dep = build_bc(np, geo, rank_in, rot)
    args = {"t": 1.3} if time_dep else None
    if jit and args is not None:
        from pde.backends.numba.utils import numba_dict

        args_j = numba_dict(t=1.3)
    else:
        args_j = args
    sig0 = f"{system}{geo['num_axes']}|{op}" + (f"({','.join(f'{k}={v}' for k, v in sorted(opts.items()))})" if opts else "")
    try:
        bcs = grid.get_boundary_conditions(bc, rank=rank_in)
    except Exception as e:  # noqa: BLE001
        return {"nt": False, "ref": f"{type(e).__name__} building BCs {used}", "out": "refused"}
    nbk = get_backend("numba")
    try:
        raw = grid.make_operator_no_bc(op, backend="numba", **opts)
    except (TypeError, ValueError, NotImplementedError) as e:
        if not opts:
            raise
        return {"nt": False, "ref": f"{type(e).__name__}: option {sorted(opts)} not accepted by {op}", "out": "refused"}
    # one-sided variants: other routes may multiply the unused neighbour by zero (scipy's correlate1d), which turns an
    # UNDEFINED ghost cell (normal-only conditions leave the other components unset) holding inf/nan into nan; the mask
    # of undefined entries is therefore the union of the masks of the one-sided and of the central kernel
    raw_central = grid.make_operator_no_bc(op, backend="numba") if "method" in opts else None
    out_shape = (dim,) * rank_out + tuple(geo["shape"])
    vidx = (slice(None),) * rank_in + (slice(1, -1),) * geo["num_axes"]
    viol, n, outs = [], 0, set()

    ops_bc = {}
    for b in ("numba", "scipy"):
        try:
            ops_bc[b] = grid.make_operator(op, bc, backend=b, **opts)
        except NotImplementedError:
            pass
        except RuntimeError as e:
            if "not uniform" not in str(e):
                raise
    setter = nbk.make_ghost_cell_setter(bcs)
    lap_matrix = None
    if op == "laplace":
        import importlib

        modname = {"cart": "cartesian", "unit": "cartesian", "polar": "polar_sym", "sph": "spherical_sym", "cyl": "cylindrical_sym"}[geo["kind"]]
        mod = importlib.import_module(f"pde.backends.scipy.operators.{modname}")
        # (the matrices discretise the default - conservative - variant)
        if not time_dep and not any(u in ("vexpr", "mexpr", "vpoint") for u in used) and opts.get("conservative", True):
            try:
                lap_matrix = mod._get_laplace_matrix(bcs)
            except (NotImplementedError, RuntimeError) as e:
                outs.add(f"matrix refused: {type(e).__name__}")

    def bad(route, label, a, b, mask):
        d = np.abs(a - b)
        d[mask] = 0
        viol.append({
            "sig": f"{sig0}|route {route} differs from no_bc-after-set_ghost_cells",
            "msg": f"{grid_name(spec)} {op} bc={used} input={label}: route {route} differs by {float(np.nanmax(d)):.3g}",
            "detail": {"bc": str(bc)[:800], "input": label},
        })

    def close(a, b, mask, tol):
        with np.errstate(all="ignore"):
            d = np.abs(a - b)
        d = np.where(mask, 0.0, d)
        return bool(np.all(d <= tol))

    bc_raw = bc
    for label, u in field_inputs(np, geo, system, op, rank_in, seed):
        # the specification is parsed on every call only for the generic input; the pre-built
        # BoundariesList (same conditions) is used for the basis enumeration
        bc = bc_raw if label == "generic" else bcs
        dt_ = complex if np.iscomplexobj(u) else float
        if dt_ is complex and (jit or op == "gradient_squared"):
            continue  # complex input: interpreted kernels only; gradient_squared is not holomorphic
        with np.errstate(all="ignore"):
            # ---- R3 (reference), twice with different fillers of the ghost cells: entries that
            # depend on ghost cells the BCs leave undefined (normal-only conditions) are masked
            refs, fulls, refs_c = [], [], []
            inadmissible = False
            for filler in (0.0, 1000.0, np.nan):
                f = cls[rank_in](grid, dtype=dt_)
                f._data_full[...] = filler
                f._data_full[vidx] = u
                f.set_ghost_cells(bc, args=args) if args else f.set_ghost_cells(bc)
                out = np.full(out_shape, np.nan, dtype=dt_)
                try:
                    raw(f._data_full, out)
                except AssertionError:
                    if not opts:
                        raise
                    inadmissible = True  # e.g. the conservative spherical variants demand more symmetry of the input
                    break
                refs.append(out)
                fulls.append(f._data_full.copy())
                if raw_central is not None:
                    oc = np.full(out_shape, np.nan, dtype=dt_)
                    raw_central(f._data_full, oc)
                    refs_c.append(oc)
            if inadmissible:
                outs.add("input refused by this variant (symmetry assertion)")
                continue
            ref = refs[0]
            mask = ~(np.abs(refs[0] - refs[1]) <= 1e-9 * (1 + np.abs(refs[0]))) | np.isnan(refs[2])
            if refs_c:
                mask |= ~(np.abs(refs_c[0] - refs_c[1]) <= 1e-9 * (1 + np.abs(refs_c[0]))) | np.isnan(refs_c[2])
            scale = 1.0 + float(np.nanmax(np.abs(np.where(mask, 0, ref)))) if ref.size else 1.0
            tol = 1e-11 * scale
            n += 2
            if np.any(np.isnan(ref)):
                viol.append({"sig": f"{sig0}|operator left output entries unwritten", "msg": f"{grid_name(spec)} {op}", "detail": None})
                break
            # ---- R4: compiled ghost-cell setter vs interpreted (non-corner ghost cells)
            for filler, full_ref in zip((0.0, 1000.0), fulls[:2]):
                full2 = np.full_like(full_ref, filler)
                full2[vidx] = u
                setter(full2, args=args_j) if args else setter(full2)
                n += 1
                cnt = np.zeros(full_ref.shape[rank_in:], int)
                for a_, s_ in enumerate(geo["shape"]):
                    sh = [1] * geo["num_axes"]
                    sh[a_] = s_ + 2
                    cnt = cnt + np.isin(np.arange(s_ + 2), [0, s_ + 1]).astype(int).reshape(sh)
                corner = cnt >= 2
                d = np.abs(full2 - full_ref)
                d[..., corner] = 0
                if not np.all(d <= 1e-12 * (1 + np.abs(full_ref))):
                    viol.append({"sig": f"{sig0.split('|')[0]}|rank{rank_in}|compiled ghost-cell setter differs from the interpreted one",
                                 "msg": f"{grid_name(spec)} bc={used} input={label}: max diff {float(d.max()):.3g}",
                                 "detail": {"bc": str(bc)[:800]}})
                    break
            # ---- R2: make_operator on each backend, with and without out (R6)
            for b, fop in ops_bc.items():
                a_ = args_j if (b == "numba" and args) else args
                r = fop(u, args=a_) if args else fop(u)
                n += 1
                if not close(r, ref, mask, tol):
                    bad(f"make_operator[{b}]", label, r, ref, mask)
                buf = np.full(out_shape, 4321.0, dtype=dt_)
                r2 = fop(u, out=buf, args=a_) if args else fop(u, out=buf)
                n += 1
                if not (close(buf, ref, mask, tol)):
                    bad(f"make_operator[{b}] with out", label, buf, ref, mask)
                if r2 is not None and not np.shares_memory(r2, buf) and not jit:
                    viol.append({"sig": f"{sig0}|make_operator[{b}] does not return the supplied out array",
                                 "msg": f"{grid_name(spec)} {op}", "detail": None})
            # ---- R1: field methods
            f = cls[rank_in](grid, dtype=dt_)
            f._data_full[...] = 0.0
            f._data_full[vidx] = u
            r = f.apply_operator(op, bc=bc, args=args, **opts) if args else f.apply_operator(op, bc=bc, **opts)
            n += 1
            if not close(r.data, ref, mask, tol):
                bad("field.apply_operator", label, r.data, ref, mask)
            if type(r) is not cls[rank_out]:
                viol.append({"sig": f"{sig0}|field.apply_operator returns a field of the wrong rank", "msg": str(type(r)), "detail": None})
            meth = FIELD_METHODS.get(op)
            if meth is not None:
                f = cls[rank_in](grid, dtype=dt_)
                f._data_full[...] = 0.0
                f._data_full[vidx] = u
                o = cls[rank_out](grid, dtype=dt_)
                o._data_full[...] = 55.0
                kw = {"args": args, **opts} if args else dict(opts)
                r = getattr(f, meth)(bc, out=o, **kw)
                n += 1
                if r is not o:
                    viol.append({"sig": f"{sig0}|field.{meth} does not return the supplied out field", "msg": "", "detail": None})
                if not close(o.data, ref, mask, tol):
                    bad(f"field.{meth}(out=)", label, o.data, ref, mask)
                if "scipy" in ops_bc:
                    f2 = cls[rank_in](grid, dtype=dt_)
                    f2._data_full[...] = 0.0
                    f2._data_full[vidx] = u
                    r = getattr(f2, meth)(bc, backend="scipy", **kw)
                    n += 1
                    if not close(r.data, ref, mask, tol):
                        bad(f"field.{meth}(backend=scipy)", label, r.data, ref, mask)
            # ---- R5: sparse matrix of the Poisson solvers
            if lap_matrix is not None:
                A, bvec = lap_matrix
                bvec = bvec.toarray() if hasattr(bvec, "toarray") else np.asarray(bvec)
                r = (np.asarray(A @ u.ravel()).ravel() + bvec.ravel()).reshape(ref.shape)
                n += 1
                if not close(r, ref, mask, 1e-10 * scale):
                    k = f"{geo['kind']}|{'hole' if geo['kind'] in ('polar', 'sph', 'cyl') and geo['bounds'][0][0] > 0 else 'nohole'}"
                    inner = used[0] if geo["kind"] in ("polar", "sph", "cyl") else ""
                    viol.append({
                        "sig": f"{k}|laplace|sparse matrix A x + b differs from the operator"
                        + (f"|inner BC {inner}" if inner else ""),
                        "msg": f"{grid_name(spec)} bc={used} input={label}: diff {float(np.nanmax(np.abs(r - ref))):.3g}",
                        "detail": {"bc": str(bc)[:800]},
                    })
        if viol:
            break
    outs.add(f"masked={'yes' if 'n' in ''.join(c[0] for c in used if c.startswith('n')) else 'no'}")
    outs.add("backends=" + "+".join(sorted(ops_bc)))
    return {"v": viol[:4], "n": n, "outs": sorted(outs),
            "keys": [f"{grid_name(spec)}|{op}{sorted(opts.items()) if opts else ''}|{u}|side{i}" for i, u in enumerate(used)]}


# ----------------------------------------------------------------------------------------------
# R7 (mode I): schedule independence of the prange loops via read/write sets + permutations
# ----------------------------------------------------------------------------------------------


class _Log:
    current = None
    order = None  # permutation applied to the iteration order of the outermost prange loop
    acc: dict = {}


class _Proxy:
    """numpy array stand-in that logs which elements are read / written under which prange tag"""

    def __init__(self, np, data, ids, name):
        self._np, self._d, self._ids, self._name = np, data, ids, name

    @property
    def shape(self):
        return self._d.shape

    @property
    def ndim(self):
        return self._d.ndim

    @property
    def dtype(self):
        return self._d.dtype

    def _log(self, kind, ids):
        tag = _Log.current
        if tag is None:
            return
        s = _Log.acc.setdefault(tag, {"r": set(), "w": set()})[kind]
        if self._np.ndim(ids) == 0:
            s.add((self._name, int(ids)))
        else:
            s.update((self._name, int(i)) for i in self._np.ravel(ids))

    def __getitem__(self, idx):
        res = self._d[idx]
        ids = self._ids[idx]
        if isinstance(res, self._np.ndarray):
            return _Proxy(self._np, res, ids, self._name)
        self._log("r", ids)
        return res

    def __setitem__(self, idx, value):
        self._log("w", self._ids[idx])
        if isinstance(value, _Proxy):
            value = self._np.asarray(value)
        self._d[idx] = value

    def __iter__(self):
        for k in range(self._d.shape[0]):
            yield self[k]

    def __len__(self):
        return self._d.shape[0]

    def __array__(self, dtype=None, copy=None):
        self._log("r", self._ids)
        return self._np.asarray(self._d, dtype=dtype)

    def __eq__(self, other):
        return self._np.asarray(self) == (self._np.asarray(other) if isinstance(other, _Proxy) else other)

    def __neg__(self):
        return -self._np.asarray(self)


def schedule_case(case):
    import numba
    import numpy as np

    spec, op, opts = case["grid"], case["op"], dict(case.get("opts") or {})
    geo = geometry(spec)
    grid = make_grid(spec)
    if op not in grid.operators:
        return {"nt": False, "out": "operator not defined"}
    system = system_of(geo)
    rank_in, rank_out = RANKS[op]
    dim = geo["dim"]
    loop_counter = itertools.count()

    class TagRange:
        def __init__(self, *a):
            self.r = range(*a)
            self.loop = next(loop_counter)

        def __iter__(self):
            outer = _Log.current is None
            seq = list(self.r)
            if outer and _Log.order is not None and len(_Log.order) == len(seq):
                seq = [seq[k] for k in _Log.order]
            for i in seq:
                if outer:
                    _Log.current = (self.loop, i)
                yield i
            if outer:
                _Log.current = None

    saved = numba.prange
    numba.prange = TagRange
    try:
        impl = grid.make_operator_no_bc(op, backend="numba", **opts)
        in_shape = (dim,) * rank_in + tuple(s + 2 for s in geo["shape"])
        out_shape = (dim,) * rank_out + tuple(geo["shape"])
        rng = np.random.default_rng(case.get("seed", 0))
        data = rng.uniform(-1, 1, size=in_shape)
        if system == "sph":
            data[...] = 0
            for el in elements_for(system, op, rank_in, dim):
                if el is None:
                    data = rng.uniform(-1, 1, size=in_shape)
                else:
                    c = rng.uniform(-1, 1, size=in_shape[rank_in:])
                    for idx, w in el:
                        data[idx] += w * c
        # 1. record read / write sets
        _Log.acc, _Log.order, _Log.current = {}, None, None
        out0 = np.full(out_shape, np.nan)
        pa = _Proxy(np, data.copy(), np.arange(data.size).reshape(data.shape), "in")
        po = _Proxy(np, out0, np.arange(out0.size).reshape(out0.shape), "out")
        loop_counter = itertools.count()
        impl(pa, po)
        acc = _Log.acc
        viol = []
        tags = sorted(acc)
        n_iter = len(tags)
        conflicts = 0
        for a, b in itertools.permutations(tags, 2):
            if a[0] != b[0]:
                continue
            w = acc[a]["w"]
            if w & acc[b]["r"] or (a < b and w & acc[b]["w"]):
                conflicts += 1
                if not viol:
                    viol.append({"sig": f"{system}{geo['num_axes']}|{op}|parallel loop iterations are not independent",
                                 "msg": f"{grid_name(spec)} {op}: iteration {a} writes what iteration {b} reads/writes",
                                 "detail": {"a": str(a), "b": str(b), "elements": sorted(w & (acc[b]['r'] | acc[b]['w']))[:5]}})
        # plain run for reference
        ref = np.full(out_shape, np.nan)
        _Log.acc, _Log.current = {}, None
        numba.prange = saved
        impl_plain = grid.make_operator_no_bc(op, backend="numba", **opts)
        impl_plain(data.copy(), ref)
        if not np.array_equal(ref, out0, equal_nan=True):
            viol.append({"sig": f"{system}{geo['num_axes']}|{op}|instrumented run differs from plain run", "msg": "", "detail": None})
        # 2. all permutations of the outer iteration order (<= 4 iterations)
        numba.prange = TagRange
        perms = 0
        outer_len = geo["shape"][0]
        if n_iter and outer_len <= 4:
            for perm in itertools.permutations(range(outer_len)):
                _Log.order, _Log.acc, _Log.current = list(perm), {}, None
                loop_counter = itertools.count()
                o = np.full(out_shape, np.nan)
                impl(data.copy(), o)
                perms += 1
                if not np.array_equal(o, ref, equal_nan=True):
                    viol.append({"sig": f"{system}{geo['num_axes']}|{op}|result depends on the iteration order of the parallel loop",
                                 "msg": f"{grid_name(spec)} {op} order {perm}", "detail": None})
                    break
        _Log.order = None
    finally:
        numba.prange = saved
        _Log.current, _Log.order = None, None
    return {"v": viol, "n": 2 + perms, "nt": n_iter > 0, "key": f"{grid_name(spec)}|{op}|{opts}",
            "out": f"prange iterations={min(n_iter, 9)} perms={'yes' if perms else 'no'}",
            "info": {"iterations": n_iter, "conflicts": conflicts}}


# ----------------------------------------------------------------------------------------------
# R7 (mode J): real threads
# ----------------------------------------------------------------------------------------------


def threads_case(case):
    import numba
    import numpy as np
    from pde.backends import get_backend

    spec, op = case["grid"], case["op"]
    geo = geometry(spec)
    grid = make_grid(spec)
    if op not in grid.operators:
        return {"nt": False, "out": "operator not defined"}
    system = system_of(geo)
    rank_in, rank_out = RANKS[op]
    dim = geo["dim"]
    rng = np.random.default_rng(case.get("seed", 0))
    in_shape = (dim,) * rank_in + tuple(s + 2 for s in geo["shape"])
    out_shape = (dim,) * rank_out + tuple(geo["shape"])
    data = rng.uniform(-1, 1, size=in_shape)
    nbk = get_backend("numba")
    viol = []
    config = nbk.config  # the numba backend's own configuration
    key_thr, key_mt = "multithreading_threshold", "multithreading"
    old = (config[key_thr], config[key_mt])
    try:
        config[key_thr], config[key_mt] = 10**9, "never"
        serial = grid.make_operator_no_bc(op, backend="numba")
        ref = np.empty(out_shape)
        serial(data.copy(), ref)
        config[key_thr], config[key_mt] = 1, "always"
        par = grid.make_operator_no_bc(op, backend="numba")
        results = {}
        n = 1
        for nt in (1, 2, 3, 4, 8, 16):
            if nt > numba.config.NUMBA_NUM_THREADS:
                continue
            numba.set_num_threads(nt)
            for chunk in (0, 1, 2):
                try:
                    numba.set_parallel_chunksize(chunk)
                except Exception:  # noqa: BLE001
                    pass
                o = np.full(out_shape, np.nan)
                par(data.copy(), o)
                n += 1
                results[(nt, chunk)] = o
        numba.set_parallel_chunksize(0)
        first = next(iter(results.values()))
        for k, o in results.items():
            if not np.array_equal(o, first):
                viol.append({"sig": f"{system}{geo['num_axes']}|{op}|parallel kernel result depends on thread count/chunk size",
                             "msg": f"{grid_name(spec)} {op} threads,chunk={k}: max diff {float(np.max(np.abs(o - first))):.3g}",
                             "detail": None})
                break
        if not np.all(np.abs(first - ref) <= 1e-12 * (1 + np.abs(ref))):
            viol.append({"sig": f"{system}{geo['num_axes']}|{op}|parallel kernel differs from the serial kernel",
                         "msg": f"{grid_name(spec)} {op}: max diff {float(np.max(np.abs(first - ref))):.3g}", "detail": None})
        is_par = bool(getattr(par, "targetoptions", {}).get("parallel", False))
    finally:
        config[key_thr], config[key_mt] = old
    return {"v": viol, "n": n, "key": f"{grid_name(spec)}|{op}", "out": f"parallel={is_par}",
            "nt": True}


# ----------------------------------------------------------------------------------------------


def main(run):
    grids = SMALL_GRIDS + (MORE_GRIDS if run.tier == "thorough" else [])
    cases = []
    for spec in grids:
        geo = geometry(spec)
        for rank, ops in OPS.items():
            K = len(CLASSES0 if rank == 0 else CLASSES12)
            for op in ops:
                for rot in range(K):
                    cases.append({"grid": spec, "op": op, "rot": rot, "seed": run.seed})
    # sparse-matrix route: ALL ordered pairs of the constant BC classes on the two sides of the first axis
    for spec in grids:
        geo = geometry(spec)
        if not geo["periodic"][0]:
            for i in range(len(CONST0)):
                for j in range(len(CONST0)):
                    cases.append({"grid": spec, "op": "laplace", "rot": ["pair", i, j], "seed": run.seed})
    # operator options must reach every route alike (the per-component wrappers of the backends forward them separately)
    for spec in grids:
        for op in ("gradient", "divergence", "vector_gradient", "tensor_divergence"):
            for meth in ("forward", "backward"):
                for rot in (0, 1):
                    cases.append({"grid": spec, "op": op, "rot": rot, "seed": run.seed, "opts": {"method": meth}})
        for op in ("laplace", "divergence", "tensor_divergence", "vector_laplace"):
            for cons in (True, False):
                cases.append({"grid": spec, "op": op, "rot": 0, "seed": run.seed, "opts": {"conservative": cons}})
    run.explore("checks.c03:routes_case", cases, mode="I", part="routes (interpreted kernels)", limit=900)
    # schedule independence of every prange kernel on small shapes
    sgrids = [["cart", [[0, 1], [-1, 3]], [2, 3], [False, False]], ["cart", [[0, 1], [0, 1]], [4, 3], [True, False]],
              ["cart", [[0, 1], [0, 2], [-3, 3]], [2, 3, 2], [False, True, False]],
              ["cart", [[0, 1], [0, 2], [0, 3]], [3, 2, 2], [False, False, False]],
              ["cyl", [1, 2], [0, 1], [2, 3], False], ["cyl", 2, [-1, 1], [4, 2], True],
              ["unit", [4], [False]], ["polar", 2, 3], ["sph", 2, 3]]
    scases = []
    for spec in sgrids:
        for ops in OPS.values():
            for op in ops:
                scases.append({"grid": spec, "op": op, "opts": {}, "seed": run.seed})
                if op == "gradient_squared":
                    scases.append({"grid": spec, "op": op, "opts": {"central": False}, "seed": run.seed})
                if op in ("gradient", "divergence") and spec[0] in ("cart", "unit"):
                    scases.append({"grid": spec, "op": op, "opts": {"method": "forward"}, "seed": run.seed})
    run.explore("checks.c03:schedule_case", scases, mode="I", part="schedules: read/write sets + permutations", limit=900)
    # mode J: compiled operator-with-BC on the covering design (one rotation subset) and real threads
    jgrids = [SMALL_GRIDS[1], SMALL_GRIDS[5], SMALL_GRIDS[6], SMALL_GRIDS[9], SMALL_GRIDS[10], SMALL_GRIDS[12], SMALL_GRIDS[14], SMALL_GRIDS[15]]
    jcases = []
    for gi, spec in enumerate(jgrids):
        for rank, ops in OPS.items():
            K = len(CLASSES0 if rank == 0 else CLASSES12)
            for oi, op in enumerate(ops):
                rots = range(K) if run.tier == "thorough" else [(gi * 5 + oi * 3) % K]
                for rot in sorted(set(rots)):
                    jcases.append({"grid": spec, "op": op, "rot": rot, "seed": run.seed, "reduced": True})
    run.explore("checks.c03:routes_case_jit", jcases, mode="J", part="routes (compiled)", chunksize=1, limit=2400)
    tgrids = [["cart", [[0, 1], [-1, 3]], [6, 5], [False, False]], ["cart", [[0, 1], [0, 2], [-3, 3]], [4, 3, 5], [False, True, False]],
              ["cyl", 2, [-1, 1], [6, 5], True]]
    tcases = [{"grid": g, "op": op, "seed": run.seed} for g in tgrids for ops in OPS.values() for op in ops]
    run.explore("checks.c03:threads_case", tcases, mode="J", part="schedules: real threads", chunksize=1, limit=2400,
                env={"NUMBA_NUM_THREADS": "16"})
    run.assumptions += [
        "output entries that depend on ghost cells which the BCs leave undefined (normal-only conditions) are identified by "
        "running the reference route with two different ghost fillers and are not compared",
        "schedule independence: Bernstein's conditions on recorded per-iteration read/write sets are sufficient for every "
        "schedule and granularity; numba's native scheduler itself is not controlled (thread counts/chunk sizes enumerated)",
        "routes compared within one execution mode to 1e-11 relative; the compiled kernels themselves are compared with the "
        "reference stencil in C01",
    ]
    return (
        "every (grid, operator, rotation of a covering BC design in which every (axis, side, BC class) occurs) x (zero, every "
        "admissible unit field, [pairs for gradient_squared], generic): R1 field methods, R2 make_operator on numba/scipy with "
        "and without out, R4 compiled vs interpreted setter, R5 sparse Laplace matrix, all against R3; R7: read/write sets and "
        "all iteration orders of every prange kernel, real threads 1..16 x chunk sizes; distinct = distinct (grid, op, side, BC class)"
    )


def routes_case_jit(case):
    import checks.c03 as me

    saved = me.field_inputs

    def reduced(np, geo, system, op, rank, seed):
        items = list(saved(np, geo, system, op, rank, seed))
        units = [it for it in items if it[0].startswith("unit")]
        keep = [items[0]] + units[:: max(1, len(units) // 6)] + [items[-1]]
        return keep

    try:
        me.field_inputs = reduced
        return routes_case(case)
    finally:
        me.field_inputs = saved
